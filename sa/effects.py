"""Interprocedural parameter-mutation effect analysis over the sasmodels library.

For a function f and one of its parameters p, `mutates(f, p)` answers: may the
object the caller passed be modified (directly, through an alias/view, or in a
resolved callee)?  Flow-sensitive inside a function (reaching definitions over
the statement CFG: a rebinding `p = p.copy()` kills the alias on the paths it
dominates), summaries propagated over the call graph.  Unresolvable callees
receiving a caller-owned object are reported as *escapes* (notes), never
silently ignored.
"""
import ast, os, glob
from .report import REPO, AnalysisError
from . import pyfacts as pf

MUTATORS = {"pop", "popitem", "update", "setdefault", "clear", "append", "extend", "insert", "remove",
            "sort", "reverse", "fill", "resize", "put", "itemset", "setflags", "byteswap", "__setitem__",
            "__delitem__", "partition_inplace"}
ALIAS_FUNCS = {"asarray", "ascontiguousarray", "asanyarray", "asfortranarray", "reshape", "ravel", "atleast_1d",
               "atleast_2d", "squeeze", "transpose", "broadcast_to", "real", "imag", "view"}
ALIAS_METHODS = {"reshape", "ravel", "view", "squeeze", "transpose", "swapaxes", "items", "keys", "values"}
ALIAS_ATTRS = {"T", "flat", "real", "imag"}

LIB_MODULES = ["direct_model", "details", "kernel", "kerneldll", "kernelpy", "kernelcl", "kernelcuda", "weights",
               "sasview_model", "bumps_model", "product", "mixture", "resolution", "resolution2d", "sesans",
               "modelinfo", "core", "generate", "data", "convert"]


class Index:
    def __init__(self):
        self.mods = {}
        for name in LIB_MODULES:
            path = "sasmodels/%s.py" % name
            if os.path.exists(os.path.join(REPO, path)):
                self.mods[name] = pf.module(path)
        self.imports = {}    # module -> {local name: (module, symbol or None)}
        for name, mod in self.mods.items():
            table = {}
            for st in ast.walk(mod.tree):
                if isinstance(st, ast.ImportFrom) and st.level >= 1:
                    src = st.module
                    for a in st.names:
                        local = a.asname or a.name
                        if src is None:          # from . import x
                            table[local] = (a.name, None)
                        else:
                            table[local] = (src.split(".")[-1], a.name)
            self.imports[name] = table
        self._summ = {}
        self._stack = set()

    def find(self, modname, qualname):
        mod = self.mods.get(modname)
        if mod and qualname in mod.functions:
            return mod.functions[qualname]
        return None

    # -- callee resolution ------------------------------------------------
    def resolve(self, call, modname, cls):
        """-> list of (modname, qualname, is_method_call) candidates, [] if unknown."""
        f = call.func
        mod = self.mods[modname]
        if isinstance(f, ast.Name):
            if f.id in mod.functions:
                return [(modname, f.id, False)]
            if f.id in mod.classes:
                q = f.id + ".__init__"
                return [(modname, q, True)] if q in mod.functions else []
            imp = self.imports[modname].get(f.id)
            if imp and imp[1] and imp[0] in self.mods:
                tgt = self.mods[imp[0]]
                if imp[1] in tgt.functions:
                    return [(imp[0], imp[1], False)]
                if imp[1] in tgt.classes and imp[1] + ".__init__" in tgt.functions:
                    return [(imp[0], imp[1] + ".__init__", True)]
            return []
        if isinstance(f, ast.Attribute):
            base = f.value
            if isinstance(base, ast.Name):
                if base.id == "self" and cls:
                    out = []
                    for c in self._mro(modname, cls):
                        q = c[1] + "." + f.attr
                        if q in self.mods[c[0]].functions:
                            out.append((c[0], q, True))
                            break
                    return out
                imp = self.imports[modname].get(base.id)
                if imp and imp[1] is None and imp[0] in self.mods:
                    tgt = self.mods[imp[0]]
                    if f.attr in tgt.functions:
                        return [(imp[0], f.attr, False)]
                    if f.attr in tgt.classes and f.attr + ".__init__" in tgt.functions:
                        return [(imp[0], f.attr + ".__init__", True)]
        return []

    def _mro(self, modname, cls):
        out = [(modname, cls)]
        node = self.mods[modname].classes.get(cls)
        if node is not None:
            for b in node.bases:
                name = pf.dotted(b)
                if name in self.mods[modname].classes:
                    out += self._mro(modname, name)
                else:
                    imp = self.imports[modname].get(name or "")
                    if imp and imp[1] and imp[0] in self.mods and imp[1] in self.mods[imp[0]].classes:
                        out += self._mro(imp[0], imp[1])
        return out

    # -- per-function analysis -----------------------------------------------
    def summary(self, modname, qualname):
        """{param: [(line, text, via)]} for parameters that may be mutated; plus '__escapes__'."""
        key = (modname, qualname)
        if key in self._summ:
            return self._summ[key]
        if key in self._stack:
            return {}
        self._stack.add(key)
        try:
            res = self._analyse(modname, qualname)
        finally:
            self._stack.discard(key)
        self._summ[key] = res
        return res

    def _analyse(self, modname, qualname):
        fn = self.find(modname, qualname)
        if fn is None:
            return {}
        cls = qualname.rsplit(".", 1)[0] if "." in qualname else None
        if cls and cls not in self.mods[modname].classes:
            cls = None
        params = pf.params(fn)
        cfg = pf.cfg(fn)
        stmts = [s for s in cfg.stmts() if not isinstance(s, ast.ExceptHandler)]
        # definitions: (stmt, name, sources) sources = set of names it may alias (empty = fresh)
        defs = {}
        for st in stmts:
            for name, sources in self._defs_of(st):
                defs.setdefault(st, []).append((name, sources))
        # reaching "alias facts": at entry of each stmt, map name -> set of params it may refer to
        IN = {s: {} for s in cfg.g.nodes}
        entry = {p: {p} for p in params}
        work = list(cfg.g.successors("ENTRY"))
        OUT = {"ENTRY": entry}
        import collections
        q = collections.deque(cfg.g.nodes)
        iters = 0
        while q:
            n = q.popleft()
            iters += 1
            if iters > 20000:
                raise AnalysisError("effects: no fixpoint in %s.%s" % (modname, qualname))
            if n == "ENTRY":
                continue
            merged = {}
            for pnode in cfg.g.predecessors(n):
                for name, ps in OUT.get(pnode, {}).items():
                    merged.setdefault(name, set()).update(ps)
            IN[n] = merged
            out = {k: set(v) for k, v in merged.items()}
            if isinstance(n, ast.AST):
                for name, sources in defs.get(n, []):
                    new = set()
                    for s in sources:
                        new |= merged.get(s, set())
                    if isinstance(n, (ast.AugAssign,)):
                        new |= merged.get(name, set())
                    out[name] = new
            if out != OUT.get(n):
                OUT[n] = out
                for s in cfg.g.successors(n):
                    q.append(s)
        result = {}
        escapes = []
        def hit(param, st, text, via):
            result.setdefault(param, []).append((getattr(st, "lineno", 0), text, via))
        for st in stmts:
            env = IN.get(st, {})
            def refers(node):
                """params the expression may alias"""
                out = set()
                for src in self._alias_sources(node):
                    out |= env.get(src, set())
                return out
            for n in pf.own_exprs(st):
                # direct mutation through method call
                if isinstance(n, ast.Call) and isinstance(n.func, ast.Attribute) and n.func.attr in MUTATORS:
                    for p in refers(n.func.value):
                        hit(p, st, pf.unparse(n), "direct")
                # out= keyword
                if isinstance(n, ast.Call):
                    for kw in n.keywords:
                        if kw.arg == "out":
                            for p in refers(kw.value):
                                hit(p, st, pf.unparse(n), "direct")
                # calls into resolved callees
                if isinstance(n, ast.Call):
                    cands = self.resolve(n, modname, cls)
                    argmap = []
                    if cands:
                        for cm, cq, is_method in cands:
                            callee = self.find(cm, cq)
                            cparams = pf.positional_params(callee)
                            if is_method and cparams and cparams[0] in ("self", "cls"):
                                cparams = cparams[1:]
                            summ = self.summary(cm, cq)
                            for i, a in enumerate(n.args):
                                if isinstance(a, ast.Starred):
                                    continue
                                if i < len(cparams):
                                    for p in refers(a):
                                        if cparams[i] in summ:
                                            hit(p, st, pf.unparse(n), "%s.%s(%s)" % (cm, cq, cparams[i]))
                            for kw in n.keywords:
                                if kw.arg and kw.arg in summ:
                                    for p in refers(kw.value):
                                        hit(p, st, pf.unparse(n), "%s.%s(%s)" % (cm, cq, kw.arg))
                    else:
                        name = pf.call_name(n) or ""
                        short = name.split(".")[-1]
                        benign = name.split(".")[0] in ("np", "numpy", "math", "os", "logging", "logger", "warnings") \
                            or short in ("len", "isinstance", "float", "int", "str", "list", "dict", "tuple", "sorted",
                                         "zip", "enumerate", "print", "getattr", "hasattr", "copy", "deepcopy", "range",
                                         "any", "all", "sum", "min", "max", "abs", "bool", "set", "repr", "type", "id",
                                         "join", "format", "get", "keys", "values", "items", "copy", "astype", "tolist",
                                         "startswith", "endswith", "TypeError", "ValueError", "KeyError", "isscalar")
                        if isinstance(n.func, ast.Attribute) and n.func.attr in MUTATORS:
                            benign = True  # handled above
                        if not benign:
                            for a in list(n.args) + [kw.value for kw in n.keywords]:
                                for p in refers(a):
                                    escapes.append((p, getattr(st, "lineno", 0), pf.unparse(n)))
            # subscript stores / deletes / augmented assignment
            targets = []
            if isinstance(st, ast.Assign):
                targets = st.targets
            elif isinstance(st, (ast.AugAssign, ast.AnnAssign)):
                targets = [st.target]
            elif isinstance(st, ast.Delete):
                targets = st.targets
            for t in targets:
                for sub in ([t] if not isinstance(t, (ast.Tuple, ast.List)) else t.elts):
                    if isinstance(sub, ast.Subscript):
                        for p in refers(sub.value):
                            hit(p, st, pf.unparse(st), "direct")
                    elif isinstance(sub, ast.Attribute) and isinstance(st, ast.AugAssign):
                        pass
                    elif isinstance(sub, ast.Name) and isinstance(st, ast.AugAssign):
                        # in-place operator on an array / dict alias
                        for p in env.get(sub.id, set()):
                            hit(p, st, pf.unparse(st), "direct(in-place operator)")
        if escapes:
            result["__escapes__"] = escapes
        return result

    def _alias_sources(self, node):
        """Names whose object `node` may alias (empty for fresh values)."""
        if isinstance(node, ast.Name):
            return {node.id}
        if isinstance(node, ast.Subscript):
            return self._alias_sources(node.value)
        if isinstance(node, ast.Attribute):
            if node.attr in ALIAS_ATTRS:
                return self._alias_sources(node.value)
            return set()
        if isinstance(node, ast.Starred):
            return self._alias_sources(node.value)
        if isinstance(node, (ast.Tuple, ast.List)):
            out = set()
            for e in node.elts:
                out |= self._alias_sources(e)
            return out
        if isinstance(node, ast.IfExp):
            return self._alias_sources(node.body) | self._alias_sources(node.orelse)
        if isinstance(node, ast.BoolOp):
            out = set()
            for v in node.values:
                out |= self._alias_sources(v)
            return out
        if isinstance(node, ast.Call):
            name = pf.call_name(node) or ""
            short = name.split(".")[-1]
            if isinstance(node.func, ast.Attribute) and node.func.attr in ALIAS_METHODS \
                    and not (name.split(".")[0] in ("np", "numpy")):
                return self._alias_sources(node.func.value)
            if short in ALIAS_FUNCS and node.args:
                return self._alias_sources(node.args[0])
            return set()
        return set()

    def _defs_of(self, st):
        out = []
        if isinstance(st, ast.Assign):
            for t in st.targets:
                self._bind(t, st.value, out)
        elif isinstance(st, ast.AnnAssign) and st.value is not None:
            self._bind(st.target, st.value, out)
        elif isinstance(st, ast.AugAssign) and isinstance(st.target, ast.Name):
            out.append((st.target.id, set()))    # keeps existing aliases (handled by caller)
        elif isinstance(st, (ast.For, ast.AsyncFor)):
            self._bind(st.target, st.iter, out)
        elif isinstance(st, (ast.With, ast.AsyncWith)):
            for it in st.items:
                if it.optional_vars is not None:
                    self._bind(it.optional_vars, ast.Constant(None), out)
        return out

    def _bind(self, target, value, out):
        if isinstance(target, ast.Name):
            out.append((target.id, self._alias_sources(value)))
        elif isinstance(target, (ast.Tuple, ast.List)):
            if isinstance(value, (ast.Tuple, ast.List)) and len(value.elts) == len(target.elts):
                for t, v in zip(target.elts, value.elts):
                    self._bind(t, v, out)
            else:
                src = self._alias_sources(value)
                for t in target.elts:
                    if isinstance(t, ast.Starred):
                        t = t.value
                    if isinstance(t, ast.Name):
                        out.append((t.id, set(src)))
                    elif isinstance(t, (ast.Tuple, ast.List)):
                        self._bind(t, value, out)


_index = None


def index():
    global _index
    if _index is None:
        _index = Index()
    return _index
