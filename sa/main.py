"""Entry point: python3-vt -m sa.main <property> [--tier t] [--replay f]"""
import sys, os, json, importlib, traceback, argparse


def main(argv=None):
    ap = argparse.ArgumentParser()
    ap.add_argument("prop")
    ap.add_argument("--tier", default=os.environ.get("VERIF_TIER", "quick") or "quick")
    ap.add_argument("--replay", default=None)
    args = ap.parse_args(argv)
    prop = args.prop.upper()
    tier = args.tier if args.tier in ("quick", "thorough") else "quick"
    try:
        mod = importlib.import_module("sa.rules.%s" % prop.lower())
    except ImportError:
        print("ANALYSIS-ERROR property=%s no rule module" % prop)
        traceback.print_exc()
        return 2
    replay = None
    if args.replay:
        with open(args.replay) as fd:
            data = json.load(fd)
        v = (data.get("violations") or [{}])[0]
        replay = {"rule": v.get("rule")}
    try:
        return mod.run(tier=tier, replay=replay)
    except Exception:
        print("ANALYSIS-ERROR property=%s uncaught exception in checker" % prop)
        traceback.print_exc()
        return 2


if __name__ == "__main__":
    code = main()
    sys.stdout.flush()
    sys.exit(code)
