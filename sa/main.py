"""Entry point: python3-vt -m sa.main <property> [--tier t] [--replay f]"""
import sys, os, json, importlib, traceback, argparse


def main(argv=None):
    ap = argparse.ArgumentParser()
    ap.add_argument("prop")
    ap.add_argument("--tier", default=os.environ.get("VERIF_TIER", "quick") or "quick")
    ap.add_argument("--replay", default=None)
    args = ap.parse_args(argv)
    prop = args.prop.upper()
    tier = args.tier if args.tier in ("quick", "thorough") else "quick"
    try:
        mod = importlib.import_module("sa.rules.%s" % prop.lower())
    except ImportError:
        print("ANALYSIS-ERROR property=%s no rule module" % prop)
        traceback.print_exc()
        return 2
    replay = None
    if args.replay:
        with open(args.replay) as fd:
            data = json.load(fd)
        v = (data.get("violations") or [{}])[0]
        replay = {"rule": v.get("rule")}
    try:
        code = mod.run(tier=tier, replay=replay)
        if tier == "thorough" and not replay and not os.environ.get("SA_SELFTEST_CHILD"):
            code = _selftest(prop, code)
        return code
    except Exception:
        print("ANALYSIS-ERROR property=%s uncaught exception in checker" % prop)
        traceback.print_exc()
        return 2


def _selftest(prop, code):
    """Thorough tier: the checker is exercised on single-edit variants of the current tree."""
    import time
    from . import selftest
    from .report import VERIF
    t0 = time.time()
    summary, failures = selftest.run(prop)
    evpath = os.path.join(os.environ.get("SA_EVIDENCE_DIR") or os.path.join(VERIF, "evidence"), prop + ".json")
    try:
        with open(evpath) as fd:
            ev = json.load(fd)
        ev["coverage"]["selftest"] = summary
        ev["coverage"]["explanation"] += (" Thorough tier: additionally %d single-edit variants of the current tree were "
                                          "analysed (%d breaking edits each detected by the named rule, %d behaviour-preserving "
                                          "twins silent, %d skipped because the anchor no longer exists)."
                                          % (summary["variants"], summary["break_detected"], summary["twins_silent"], len(summary["skipped"])))
        ev["wall_s"] = round(ev["wall_s"] + time.time() - t0, 3)
        with open(evpath, "w") as fd:
            json.dump(ev, fd, indent=1, sort_keys=True)
            fd.write("\n")
    except OSError:
        pass
    print("selftest property=%s variants=%d detected=%d twins_silent=%d seeded_detected=%d/%d skipped=%d wall=%.1fs" % (
        prop, summary["variants"], summary["break_detected"], summary["twins_silent"], summary.get("seeded_changes_detected", 0),
        len(summary.get("seeded_changes", [])), len(summary["skipped"]), time.time() - t0))
    for f in failures:
        print("SELFTEST-MISS property=%s %s" % (prop, f))
    if failures and code == 0:
        return 2
    return code


if __name__ == "__main__":
    code = main()
    sys.stdout.flush()
    sys.exit(code)
