"""Structural model of the macro-expanded kernel functions (<model>_Iq,
<model>_Iqxy, <model>_Imagnetic) of one generated translation unit."""
import re
from .report import AnalysisError
from .nf import c_text, c_strip, c_callee
from .cfront import walk, Unit

VARIANTS = ("Iq", "Iqxy", "Imagnetic")


def norm(s):
    return re.sub(r"\s+", "", s)


def kids(node):
    return [k for k in node.get("inner", []) if isinstance(k, dict) and k.get("kind")]


def product_factors(node):
    """Top-level factors of an expression tree: [node] unless its root (under casts/parentheses) is a `*`.  Decides
    "weight * X" on the syntax tree - the text `w * a ? b : c` starts with `w *` but is a conditional on `w * a`."""
    n = c_strip(node)
    while n.get("kind") == "ParenExpr":
        n = c_strip(kids(n)[0])
    if n.get("kind") == "BinaryOperator" and n.get("opcode") == "*":
        a, b = kids(n)
        return product_factors(a) + product_factors(b)
    return [n]


def weighted_by(node, name):
    """The expression is a product one of whose top-level factors is the variable `name`."""
    fs = product_factors(node)
    return len(fs) >= 2 and any(f.get("kind") == "DeclRefExpr" and f["referencedDecl"]["name"] == name for f in fs) or \
        (len(fs) == 1 and fs[0].get("kind") == "DeclRefExpr" and fs[0]["referencedDecl"]["name"] == name)


def var_decls(compound):
    """Top-level VarDecl nodes of a compound statement: [(name, decl, init or None, stmt)]."""
    out = []
    for st in kids(compound):
        if st["kind"] == "DeclStmt":
            for d in kids(st):
                if d["kind"] == "VarDecl":
                    init = [x for x in kids(d)]
                    out.append((d["name"], d, init[0] if init else None, st))
    return out


def if_parts(node):
    k = kids(node)
    return k[0], k[1], (k[2] if len(k) > 2 else None)


class Kernel:
    """Facts about one kernel function."""
    def __init__(self, unit, variant):
        self.unit = unit
        self.variant = variant
        self.fname = "%s_%s" % (unit.meta.get("name_override") or unit.name.lstrip("_"), variant)
        if self.fname not in unit.functions:
            # the witness unit is named after the reparameterised model
            cands = [f for f in unit.functions if f.endswith("_" + variant)]
            if len(cands) != 1:
                raise AnalysisError("%s: kernel function *_%s not found" % (unit.name, variant))
            self.fname = cands[0]
        self.fn = unit.fn(self.fname)
        self.params = [p["name"] for p in Unit.params(self.fn)]
        self.body = Unit.body(self.fn)
        if len(self.params) != 9:
            raise AnalysisError("%s: kernel signature has %d parameters, expected 9" % (self.fname, len(self.params)))
        (self.p_nq, self.p_start, self.p_stop, self.p_details, self.p_values, self.p_q, self.p_result,
         self.p_cutoff, self.p_mode) = self.params
        self.decls = var_decls(self.body)
        self._loops = None

    # ------------------------------------------------------------------
    def accumulators(self):
        """Locals initialised as `pd_start == 0 ? 0 : result[E]` -> [(name, E text, decl)]."""
        out = []
        for name, d, init, st in self.decls:
            if init is None:
                continue
            e = c_strip(init)
            if e.get("kind") == "ConditionalOperator":
                c, a, b = kids(e)
                if norm(c_text(c)) == norm("%s == 0" % self.p_start):
                    b2 = c_strip(b)
                    a2 = c_strip(a)
                    zero = a2.get("kind") in ("IntegerLiteral", "FloatingLiteral") and float(a2["value"]) == 0.0
                    if b2.get("kind") == "ArraySubscriptExpr" and c_text(kids(b2)[0]).strip() == self.p_result:
                        out.append((name, norm(c_text(kids(b2)[1])), d, zero))
        return out

    def exit_stores(self):
        """`result[E] = v` statements outside every loop -> [(E text, value text, node)]."""
        out = []
        def scan(comp, in_loop):
            for st in kids(comp):
                k = st["kind"]
                if k in ("WhileStmt", "ForStmt", "DoStmt"):
                    continue
                if k == "CompoundStmt":
                    scan(st, in_loop)
                if k == "BinaryOperator" and st.get("opcode") == "=":
                    lhs = c_strip(kids(st)[0])
                    if lhs.get("kind") == "ArraySubscriptExpr" and c_text(kids(lhs)[0]).strip() == self.p_result:
                        out.append((norm(c_text(kids(lhs)[1])), c_text(kids(st)[1]).strip(), st))
        scan(self.body, False)
        return out

    def zero_loop(self):
        """The `if (pd_start == 0) for (...; q_index < B; ...) result[q_index] = 0` block -> bound text."""
        for st in kids(self.body):
            if st["kind"] == "IfStmt":
                c, then, _ = if_parts(st)
                if norm(c_text(c)) == norm("%s == 0" % self.p_start):
                    for n in walk(then):
                        if n.get("kind") == "ForStmt":
                            parts = n.get("inner", [])
                            cond = parts[2] if len(parts) > 2 else None
                            bodyst = parts[-1]
                            txt = norm(c_text(cond)) if cond else ""
                            m = re.match(r"^(\w+)<(.+)$", txt)
                            stores = [x for x in walk(bodyst) if x.get("kind") == "BinaryOperator" and x.get("opcode") == "="]
                            ok = bool(stores) and norm(c_text(stores[0])).startswith(norm("%s[%s]=0" % (self.p_result, m.group(1) if m else "?")))
                            return (m.group(2) if m else None), ok, st
        return None, False, None

    def loops(self):
        """Nested dispersity while-loops, outermost first: [(while node, level index text)]."""
        if self._loops is not None:
            return self._loops
        out = []
        comp = self.body
        while True:
            w = [st for st in kids(comp) if st["kind"] == "WhileStmt"]
            if not w:
                break
            cond, body = kids(w[0])[0], kids(w[0])[1]
            out.append((w[0], comp))
            comp = body
        self._loops = out
        self.inner = comp     # innermost compound (loop body, or function body when MAX_PD == 0)
        return out

    def innermost(self):
        self.loops()
        return self.inner

    # ------------------------------------------------------------------
    def valid_if(self):
        """The `if (VALID(...))` statement in the innermost body."""
        for st in kids(self.innermost()):
            if st["kind"] == "IfStmt":
                c, then, els = if_parts(st)
                inner_ifs = [x for x in kids(then) if x.get("kind") == "IfStmt"] if then.get("kind") == "CompoundStmt" else []
                if any(self._is_cutoff_test(if_parts(x)[0]) for x in inner_ifs):
                    return st
        return None

    def cutoff_if(self):
        v = self.valid_if()
        if v is None:
            return None
        _, then, _ = if_parts(v)
        for x in kids(then):
            if x.get("kind") == "IfStmt" and self._is_cutoff_test(if_parts(x)[0]):
                return x
        return None

    def _is_cutoff_test(self, cond):
        """a comparison (any operator) of some weight variable with the cutoff parameter"""
        c = c_strip(cond)
        if c.get("kind") != "BinaryOperator" or c.get("opcode") not in (">", ">=", "<", "<=", "!=", "=="):
            return False
        sides = [norm(c_text(x)) for x in kids(c)]
        return self.p_cutoff in sides

    def accumulations(self):
        """Every `X += ...` (CompoundAssignOperator) in the function -> [(lhs text, rhs text, node, ancestors)]."""
        out = []
        def rec(node, anc):
            for ch in kids(node):
                if ch["kind"] == "CompoundAssignOperator" and ch.get("opcode") == "+=":
                    out.append((norm(c_text(kids(ch)[0])), c_text(kids(ch)[1]).strip(), ch, list(anc)))
                rec(ch, anc + [ch])
        rec(self.body, [])
        return out

    def q_loop(self):
        c = self.cutoff_if()
        if c is None:
            return None
        for n in walk(c):
            if n.get("kind") == "ForStmt":
                return n
        return None

    def model_calls(self, names=("Iq", "Fq", "Iqac", "Iqabc", "Iqxy", "form_volume", "shell_volume", "radius_effective")):
        out = []
        for n in walk(self.body):
            if n.get("kind") == "CallExpr" and c_callee(n) in names:
                out.append(n)
        return out
