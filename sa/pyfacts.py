"""E-py: facts about the Python library, from `ast` only.

Module index, function lookup by qualified name, statement-level control-flow
graph with dominators / post-dominators, simple def-use helpers, and a tiny
resolver for calls inside the sasmodels package.
"""
import ast, os, re
import networkx as nx
from .report import REPO, AnalysisError

PKG = os.path.join(REPO, "sasmodels")
_cache = {}


def unparse(node):
    return re.sub(r"\s+", " ", ast.unparse(node)).strip()


class Module:
    def __init__(self, relpath):
        self.relpath = relpath
        self.path = os.path.join(REPO, relpath)
        if not os.path.exists(self.path):
            raise AnalysisError("anchor file missing: %s" % relpath)
        with open(self.path) as fd:
            self.text = fd.read()
        self.tree = ast.parse(self.text, filename=self.path)
        from . import alpha
        self.aligned = alpha.align_module(self.tree, relpath)
        self.functions = {}   # qualname -> FunctionDef
        self.classes = {}
        self.parents = {}
        for node in ast.walk(self.tree):
            for child in ast.iter_child_nodes(node):
                self.parents[child] = node
        self._index(self.tree, "")
        self.sem_aligned = set()
        if relpath.startswith("sasmodels/") and not os.environ.get("SA_NO_SEMALIGN"):
            from . import refs
            refs.rename_map()
            self.sem_aligned = refs.sem_align(self)
            if self.sem_aligned:
                # parents / index of the substituted bodies
                self.parents = {}
                for node in ast.walk(self.tree):
                    for child in ast.iter_child_nodes(node):
                        self.parents[child] = node
                self.functions, self.classes = {}, {}
                self._index(self.tree, "")

    def _index(self, node, prefix):
        for child in ast.iter_child_nodes(node):
            if isinstance(child, (ast.FunctionDef, ast.AsyncFunctionDef)):
                q = prefix + child.name
                self.functions.setdefault(q, child)
                self._index(child, q + ".")
            elif isinstance(child, ast.ClassDef):
                self.classes[prefix + child.name] = child
                self._index(child, prefix + child.name + ".")
            elif isinstance(child, (ast.If, ast.Try, ast.With, ast.For, ast.While)):
                self._index(child, prefix)

    def func(self, qualname):
        f = self.functions.get(qualname)
        if f is None and self.relpath.startswith("sasmodels/"):
            # a function that was renamed (same fold as its reference under a new name in the same scope) is read under
            # its new name
            from . import refs
            new = refs.rename_map().get(self.relpath, {}).get(qualname)
            if new:
                f = self.functions.get(new)
        if f is None:
            raise AnalysisError("anchor function missing: %s:%s" % (self.relpath, qualname))
        trace = os.environ.get("SA_TRACE_FUNCS")
        if trace:
            with open(trace, "a") as fd:
                fd.write("%s\t%s\n" % (self.relpath, qualname))
        return f

    def has(self, qualname):
        if qualname in self.functions:
            return True
        if self.relpath.startswith("sasmodels/"):
            from . import refs
            new = refs.rename_map().get(self.relpath, {}).get(qualname)
            return bool(new) and new in self.functions
        return False

    def cls(self, name):
        c = self.classes.get(name)
        if c is None:
            raise AnalysisError("anchor class missing: %s:%s" % (self.relpath, name))
        return c

    def module_assign(self, name):
        """Value expression of a module-level `name = ...` (last one)."""
        found = None
        for st in self.tree.body:
            if isinstance(st, ast.Assign):
                for t in st.targets:
                    if isinstance(t, ast.Name) and t.id == name:
                        found = st.value
            elif isinstance(st, ast.AnnAssign) and isinstance(st.target, ast.Name) \
                    and st.target.id == name and st.value is not None:
                found = st.value
        if found is None:
            raise AnalysisError("module constant missing: %s:%s" % (self.relpath, name))
        return found


def module(relpath):
    """Parsed module of the current working tree (cached per process)."""
    if relpath not in _cache:
        _cache[relpath] = Module(relpath)
    return _cache[relpath]


def lib(name):
    return module("sasmodels/%s.py" % name)


# ---------------------------------------------------------------------------
# Control-flow graph
# ---------------------------------------------------------------------------
class CFG:
    """Statement-level CFG of one function.

    Nodes are ast statement objects (compound statements appear as their
    header: the `If` node stands for evaluating its test, `For` for the
    iteration step, ...) plus the strings 'ENTRY', 'EXIT' (normal return)
    and 'RAISE' (exceptional exit).  Every call is assumed to be able to
    raise only where the rule says so; exceptions propagate from explicit
    `raise` statements and to enclosing handlers.
    """
    def __init__(self, fn):
        self.fn = fn
        self.g = nx.DiGraph()
        self.g.add_nodes_from(["ENTRY", "EXIT", "RAISE"])
        self.loop_stack = []
        self.handler_stack = []   # list of lists of handler entry statements
        self.finally_stack = []
        outs = self._block(fn.body, ["ENTRY"])
        for o in outs:
            self.g.add_edge(o, "EXIT")
        self._dom = None
        self._pdom = None

    # each _stmt returns the list of nodes whose control falls through
    def _block(self, stmts, preds):
        for st in stmts:
            preds = self._stmt(st, preds)
        return preds

    def _link(self, preds, node):
        for p in preds:
            self.g.add_edge(p, node)

    def _raise_target(self):
        if self.handler_stack:
            return self.handler_stack[-1]
        return "RAISE"

    def _stmt(self, st, preds):
        g = self.g
        g.add_node(st)
        self._link(preds, st)
        if isinstance(st, ast.If):
            t = self._block(st.body, [st])
            e = self._block(st.orelse, [st]) if st.orelse else [st]
            return t + e
        if isinstance(st, (ast.For, ast.AsyncFor, ast.While)):
            self.loop_stack.append({"head": st, "breaks": []})
            body_out = self._block(st.body, [st])
            self._link(body_out, st)
            info = self.loop_stack.pop()
            # loop exit (condition false / iterator exhausted) -> orelse
            outs = self._block(st.orelse, [st]) if st.orelse else [st]
            infinite = isinstance(st, ast.While) and isinstance(st.test, ast.Constant) and st.test.value
            if infinite:
                outs = []
            return outs + info["breaks"]
        if isinstance(st, ast.Break):
            self.loop_stack[-1]["breaks"].append(st)
            return []
        if isinstance(st, ast.Continue):
            g.add_edge(st, self.loop_stack[-1]["head"])
            return []
        if isinstance(st, ast.Return):
            g.add_edge(st, "EXIT")
            return []
        if isinstance(st, ast.Raise):
            tgt = self._raise_target()
            if tgt == "RAISE":
                g.add_edge(st, "RAISE")
            else:
                for h in tgt:
                    g.add_edge(st, h)
            return []
        if isinstance(st, (ast.With, ast.AsyncWith)):
            return self._block(st.body, [st])
        if isinstance(st, ast.Try):
            handler_nodes = []
            for h in st.handlers:
                g.add_node(h)
                handler_nodes.append(h)
            if handler_nodes:
                self.handler_stack.append(handler_nodes)
            body_out = self._try_body(st.body, [st], handler_nodes)
            if handler_nodes:
                self.handler_stack.pop()
            outs = self._block(st.orelse, body_out) if st.orelse else body_out
            for h in st.handlers:
                outs = outs + self._block(h.body, [h])
            if st.finalbody:
                outs = self._block(st.finalbody, outs)
            return outs
        if isinstance(st, (ast.FunctionDef, ast.ClassDef, ast.AsyncFunctionDef)):
            return [st]
        return [st]

    def _try_body(self, stmts, preds, handlers):
        # any statement of a try body may transfer to any handler
        for st in stmts:
            preds = self._stmt(st, preds)
            for h in handlers:
                self.g.add_edge(st, h)
        return preds

    # dominance ---------------------------------------------------------
    def dom(self):
        if self._dom is None:
            self._dom = nx.immediate_dominators(self.g, "ENTRY")
        return self._dom

    def pdom(self, exit_node="EXIT"):
        key = exit_node
        if self._pdom is None:
            self._pdom = {}
        if key not in self._pdom:
            self._pdom[key] = nx.immediate_dominators(self.g.reverse(copy=True), exit_node)
        return self._pdom[key]

    def dominates(self, a, b):
        """a dominates b (every path ENTRY->b passes a)."""
        idom = self.dom()
        if b not in idom:
            return True   # unreachable
        n = b
        while True:
            if n == a:
                return True
            p = idom.get(n)
            if p is None or p == n:
                return False
            n = p

    def postdominates(self, a, b, exit_node="EXIT"):
        """a post-dominates b w.r.t. normal return."""
        idom = self.pdom(exit_node)
        if b not in idom:
            return True   # b cannot reach the exit: vacuous
        n = b
        while True:
            if n == a:
                return True
            p = idom.get(n)
            if p is None or p == n:
                return False
            n = p

    def reachable_without(self, src, dst, blockers):
        """Is dst reachable from src along a path avoiding every node in blockers?"""
        blockers = set(blockers)
        seen = set()
        stack = [src]
        while stack:
            n = stack.pop()
            if n in seen:
                continue
            seen.add(n)
            for m in self.g.successors(n):
                if m == dst:
                    return True
                if m in blockers or m in seen:
                    continue
                stack.append(m)
        return False

    def stmts(self):
        return [n for n in self.g.nodes if isinstance(n, ast.AST)]

    def reaches(self, src, dst):
        """Is there a path src -> ... -> dst (at least one edge)?"""
        return self.reachable_without(src, dst, ())


def cfg(fn):
    return CFG(fn)


def block_of(mod, st):
    """The statement list that directly contains `st`."""
    p = mod.parents.get(st)
    for field in ("body", "orelse", "finalbody", "handlers"):
        blk = getattr(p, field, None)
        if isinstance(blk, list) and any(x is st for x in blk):
            return blk
    raise AnalysisError("block of statement at line %s not found" % getattr(st, "lineno", "?"))


# ---------------------------------------------------------------------------
# small syntactic helpers
# ---------------------------------------------------------------------------
def walk_stmts(fn, kinds=None):
    """All statements of a function body, in source order (nested functions excluded)."""
    out = []
    def rec(stmts):
        for st in stmts:
            if kinds is None or isinstance(st, kinds):
                out.append(st)
            if isinstance(st, (ast.FunctionDef, ast.AsyncFunctionDef, ast.ClassDef)):
                continue
            for field in ("body", "orelse", "finalbody"):
                sub = getattr(st, field, None)
                if isinstance(sub, list):
                    rec(sub)
            if isinstance(st, ast.Try):
                for h in st.handlers:
                    rec(h.body)
    rec(fn.body)
    return out


def own_exprs(st):
    """Expression nodes that belong to the statement header itself (not nested bodies)."""
    if isinstance(st, ast.If) or isinstance(st, ast.While):
        roots = [st.test]
    elif isinstance(st, (ast.For, ast.AsyncFor)):
        roots = [st.target, st.iter]
    elif isinstance(st, (ast.With, ast.AsyncWith)):
        roots = [i.context_expr for i in st.items] + [i.optional_vars for i in st.items if i.optional_vars]
    elif isinstance(st, ast.Try):
        roots = []
    elif isinstance(st, (ast.FunctionDef, ast.AsyncFunctionDef, ast.ClassDef)):
        roots = []
    elif isinstance(st, ast.ExceptHandler):
        roots = [st.type] if st.type else []
    else:
        roots = [st]
    for r in roots:
        for n in ast.walk(r):
            yield n


def calls_in(node):
    return [n for n in ast.walk(node) if isinstance(n, ast.Call)]


def call_name(call):
    """Dotted name of the callee expression, e.g. 'np.dot', 'self._loops', 'foo'."""
    return dotted(call.func)


def dotted(node):
    if isinstance(node, ast.Name):
        return node.id
    if isinstance(node, ast.Attribute):
        base = dotted(node.value)
        return (base + "." + node.attr) if base else None
    return None


def names_in(node):
    return {n.id for n in ast.walk(node) if isinstance(n, ast.Name)}


def assigned_names(st):
    """Names (re)bound by a statement header."""
    out = set()
    tgts = []
    if isinstance(st, ast.Assign):
        tgts = st.targets
    elif isinstance(st, (ast.AugAssign, ast.AnnAssign)):
        tgts = [st.target]
    elif isinstance(st, (ast.For, ast.AsyncFor)):
        tgts = [st.target]
    elif isinstance(st, (ast.With, ast.AsyncWith)):
        tgts = [i.optional_vars for i in st.items if i.optional_vars is not None]
    for t in tgts:
        for n in ast.walk(t):
            if isinstance(n, ast.Name) and isinstance(n.ctx, ast.Store):
                out.add(n.id)
    return out


def params(fn):
    a = fn.args
    return [x.arg for x in a.posonlyargs + a.args] + \
           ([a.vararg.arg] if a.vararg else []) + \
           [x.arg for x in a.kwonlyargs] + ([a.kwarg.arg] if a.kwarg else [])


def positional_params(fn):
    a = fn.args
    return [x.arg for x in a.posonlyargs + a.args]


def ends_in_raise(body):
    """Every path through the statement list ends in raise (syntactic)."""
    if not body:
        return False
    last = body[-1]
    if isinstance(last, ast.Raise):
        return True
    if isinstance(last, ast.If) and last.orelse:
        return ends_in_raise(last.body) and ends_in_raise(last.orelse)
    return False


def const_value(node):
    """Fold a numeric literal expression (unary minus, simple arithmetic)."""
    try:
        return ast.literal_eval(node)
    except Exception:
        pass
    if isinstance(node, ast.BinOp):
        l, r = const_value(node.left), const_value(node.right)
        if l is None or r is None:
            return None
        try:
            if isinstance(node.op, ast.Add): return l + r
            if isinstance(node.op, ast.Sub): return l - r
            if isinstance(node.op, ast.Mult): return l * r
            if isinstance(node.op, ast.Div): return l / r
            if isinstance(node.op, ast.Pow): return l ** r
        except Exception:
            return None
    if isinstance(node, ast.UnaryOp) and isinstance(node.op, ast.USub):
        v = const_value(node.operand)
        return -v if v is not None else None
    return None


def canon(text):
    """Normal form of a source fragment (expression or statement) as this interpreter unparses it."""
    try:
        return unparse(ast.parse(text.strip()))
    except SyntaxError:
        return re.sub(r"\s+", " ", text).strip()


def is_text(node, *expected):
    """Does the node unparse to one of the expected fragments (compared after re-parsing both)?"""
    got = unparse(node)
    return any(got == canon(e) for e in expected)


def contains_text(node, expected):
    """Is the (canonical) fragment a substring of the node's canonical text?"""
    return canon(expected) in unparse(node)


def single_assignments(fn):
    """Local names bound exactly once in the function by a plain `name = expr` (not a parameter, not augmented,
    not a loop target, not bound inside a loop): these are temporaries that can be inlined."""
    counts, value, in_loop = {}, {}, set()
    ps = set(params(fn))
    def rec(stmts, loop):
        for st in stmts:
            for n in assigned_names(st):
                counts[n] = counts.get(n, 0) + 1
                if loop:
                    in_loop.add(n)
            if isinstance(st, ast.Assign) and len(st.targets) == 1 and isinstance(st.targets[0], ast.Name):
                value[st.targets[0].id] = st.value
            if isinstance(st, (ast.FunctionDef, ast.AsyncFunctionDef, ast.ClassDef)):
                continue
            for field in ("body", "orelse", "finalbody"):
                sub = getattr(st, field, None)
                if isinstance(sub, list):
                    rec(sub, loop or isinstance(st, (ast.For, ast.While)))
            if isinstance(st, ast.Try):
                for h in st.handlers:
                    rec(h.body, loop)
    rec(fn.body, False)
    return {n: v for n, v in value.items() if counts.get(n) == 1 and n not in ps and n not in in_loop}


def inline_locals(fn, node, depth=6):
    """Copy of `node` with every single-assignment temporary replaced by its defining expression (recursively)."""
    import copy
    singles = single_assignments(fn)
    class T(ast.NodeTransformer):
        def __init__(self, d):
            self.d = d
        def visit_Name(self, n):
            if isinstance(n.ctx, ast.Load) and n.id in singles and self.d > 0:
                return T(self.d - 1).visit(copy.deepcopy(singles[n.id]))
            return n
    return T(depth).visit(copy.deepcopy(node))


def inlined_text(fn, node):
    return unparse(inline_locals(fn, node))
