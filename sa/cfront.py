"""E-c: clang JSON AST loader for the generated translation units.

`generate_units()` runs the repository's generator (sa/gen_units.py under
/venv/bin/python) into a scratch directory; `load_unit()` runs
`clang -fsyntax-only -Xclang -ast-dump=json` on one unit with the private stub
headers and returns a Unit with location-annotated nodes.  `map_units()` fans
analysis functions out over a process pool.  Nothing is compiled to machine
code or executed.
"""
import json, os, re, subprocess, sys, tempfile, shutil, atexit, importlib
from concurrent.futures import ProcessPoolExecutor
from .report import REPO, VERIF, AnalysisError

STUBS = os.path.join(VERIF, "sa", "stubs")
_scratch = None
_index = None


def scratch_dir():
    global _scratch
    if _scratch is None:
        base = os.environ.get("SA_SCRATCH") or tempfile.gettempdir()
        _scratch = tempfile.mkdtemp(prefix="sa_units_", dir=base)
        atexit.register(lambda: shutil.rmtree(_scratch, ignore_errors=True))
    return _scratch


def generate_units():
    """Run the generator step once per process; returns the index dict."""
    global _index
    if _index is not None:
        return _index
    out = scratch_dir()
    env = dict(os.environ, PYTHONDONTWRITEBYTECODE="1", SAS_OPENCL="none")
    proc = subprocess.run(["/venv/bin/python", os.path.join(VERIF, "sa", "gen_units.py"), REPO, out],
                          capture_output=True, text=True, env=env, cwd=out)
    if proc.returncode != 0 or not os.path.exists(os.path.join(out, "index.json")):
        raise AnalysisError("generator step failed: %s" % (proc.stderr.strip().splitlines()[-3:],))
    with open(os.path.join(out, "index.json")) as fd:
        _index = json.load(fd)
    if _index.get("errors"):
        name, tb = sorted(_index["errors"].items())[0]
        raise AnalysisError("generator raised for %s: %s" % (name, tb.strip().splitlines()[-1]))
    return _index


def repo_path(pfile):
    """Map a presumed file name from a #line directive to a path relative to /repo."""
    if pfile is None:
        return "<generated>"
    p = pfile.replace("\\", "/")
    if " " in p and p.split(" ")[0].endswith(".c"):
        p = p.split(" ")[0]     # "./kernel_iq.c Iq" names the instantiation
    if p.startswith("./"):
        return "sasmodels/" + p[2:]
    if p.startswith(REPO + "/"):
        return p[len(REPO) + 1:]
    return p


class _Loc:
    __slots__ = ("pfile", "line", "pline")
    def __init__(self):
        self.pfile, self.line, self.pline = None, 0, 0


def _apply(d, st):
    if "presumedFile" in d:
        st.pfile = d["presumedFile"]
    elif "file" in d:
        st.pfile = d["file"]
    if "line" in d:
        st.line = d["line"]
        st.pline = d.get("presumedLine", d["line"])
    elif "presumedLine" in d:
        st.pline = d["presumedLine"]


def _visit_loc(d, st):
    if not d:
        return
    if "spellingLoc" in d or "expansionLoc" in d:
        if "spellingLoc" in d:
            _apply(d["spellingLoc"], st)
        if "expansionLoc" in d:
            _apply(d["expansionLoc"], st)
    else:
        _apply(d, st)


def annotate(node, st=None):
    """Attach _file/_line (presumed, i.e. after #line mapping) to every node, in document order."""
    st = st or _Loc()
    stack = [node]
    # iterative pre-order, preserving child order
    while stack:
        n = stack.pop()
        if not isinstance(n, dict):
            continue
        if "loc" in n:
            _visit_loc(n["loc"], st)
        rng = n.get("range")
        if rng:
            _visit_loc(rng.get("begin"), st)
            n["_file"], n["_line"] = st.pfile, st.pline
            _visit_loc(rng.get("end"), st)
        else:
            n["_file"], n["_line"] = st.pfile, st.pline
        inner = n.get("inner")
        if inner:
            stack.extend(reversed(inner))
    return node


class Unit:
    def __init__(self, name, path, ast, meta):
        self.name, self.path, self.ast, self.meta = name, path, ast, meta
        self.functions = {}
        self.records = {}
        for d in ast.get("inner", []):
            k = d.get("kind")
            if k == "FunctionDecl" and any(x.get("kind") == "CompoundStmt" for x in d.get("inner", [])):
                self.functions[d["name"]] = d
            elif k == "FunctionDecl":
                self.functions.setdefault(d["name"], d)
            elif k == "RecordDecl" and d.get("completeDefinition"):
                self.records[d.get("name") or d["id"]] = d
            elif k == "TypedefDecl":
                self.records.setdefault("typedef:" + d["name"], d)

    def fn(self, name):
        f = self.functions.get(name)
        if f is None:
            raise AnalysisError("%s: function %s not in the translation unit" % (self.name, name))
        return f

    @staticmethod
    def params(fn):
        return [p for p in fn.get("inner", []) if p.get("kind") == "ParmVarDecl"]

    @staticmethod
    def body(fn):
        for p in fn.get("inner", []):
            if p.get("kind") == "CompoundStmt":
                return p
        return None

    @staticmethod
    def where(node):
        return repo_path(node.get("_file")), node.get("_line", 0)


def load_unit(name, path, meta=None, defines=(), _align=True):
    extra_inc = []
    unknown_headers = []
    for _ in range(6):
        if path.endswith(".cl"):
            # OpenCL C configuration: clang's own OpenCL front end with its builtin declarations; __OPENCL_VERSION__ is what
            # a device compiler defines and what kernel_header.c tests
            cmd = ["clang", "-x", "cl", "-cl-std=CL1.2", "-D__OPENCL_VERSION__=120", "-Xclang", "-finclude-default-header",
                   "-fsyntax-only", "-Wno-everything", "-Werror=incompatible-pointer-types", "-Werror=int-conversion",
                   "-Werror=implicit-function-declaration", "-Xclang", "-ast-dump=json"] + ["-D%s" % d for d in defines] + [path]
            proc = subprocess.run(cmd, capture_output=True)
            break
        cmd = ["clang", "-std=c99", "-nostdinc", "-I", STUBS] + extra_inc + ["-fsyntax-only", "-Wno-everything",
               "-Xclang", "-ast-dump=json"] + ["-D%s" % d for d in defines] + [path]
        proc = subprocess.run(cmd, capture_output=True)
        if proc.returncode == 0:
            break
        err = proc.stderr.decode(errors="replace")
        m = re.search(r"fatal error: '([^']+)' file not found", err)
        if not m:
            break
        # a system header the stub set does not know: give it an empty stand-in (its functions become undeclared
        # callees, which the rules see by name) and remember that it was included
        hdr = m.group(1)
        d = os.path.join(scratch_dir(), "stub_%s" % name)
        os.makedirs(os.path.join(d, os.path.dirname(hdr)), exist_ok=True)
        open(os.path.join(d, hdr), "w").write("/* unknown system header: empty stand-in */\n")
        if ["-I", d] != extra_inc[-2:]:
            extra_inc += ["-I", d]
        unknown_headers.append(hdr)
    if proc.returncode != 0:
        raise AnalysisError("clang failed on %s: %s" % (name, proc.stderr.decode(errors="replace").strip().splitlines()[:3]))
    ast = json.loads(proc.stdout)
    annotate(ast)
    unit = Unit(name, path, ast, meta or {})
    unit.unknown_headers = unknown_headers
    if _align:
        from . import calpha
        unit.aligned = calpha.align(unit)
    return unit


def walk(node):
    """Pre-order traversal of a clang JSON subtree."""
    stack = [node]
    while stack:
        n = stack.pop()
        if isinstance(n, dict):
            yield n
            inner = n.get("inner")
            if inner:
                stack.extend(reversed(inner))


def _worker(args):
    func_path, name, path, meta, extra = args
    if path.endswith(".cl"):
        meta = dict(meta, config="opencl", name_override=name.split("@")[0])
    modname, fname = func_path.split(":")
    try:
        mod = importlib.import_module(modname)
        unit = load_unit(name, path, meta)
        return name, getattr(mod, fname)(unit, extra), None
    except AnalysisError as exc:
        return name, None, "AnalysisError: %s" % exc
    except Exception:
        import traceback
        return name, None, traceback.format_exc()


def map_units(func_path, names=None, extra=None, include_witness=False, config="dll"):
    """Run `module:function(unit, extra)` on every (selected) generated unit in parallel.
    Returns {unit name: result}; raises AnalysisError if any worker failed."""
    idx = generate_units()
    jobs = []
    for name, meta in sorted(idx["models"].items()):
        if meta.get("kind") != "c":
            continue
        if names is not None and name not in names:
            continue
        if config == "opencl-f32":
            if not meta.get("f32_cl_unit"):
                raise AnalysisError("generator produced no single-precision OpenCL source for %s" % name)
            jobs.append((func_path, name + "@opencl-f32", meta["f32_cl_unit"], meta, extra))
        elif config == "opencl":
            if not meta.get("cl_unit"):
                raise AnalysisError("generator produced no OpenCL source for %s" % name)
            jobs.append((func_path, name + "@opencl", meta["cl_unit"], meta, extra))
        else:
            jobs.append((func_path, name, meta["unit"], meta, extra))
    if include_witness is True and "witness" in idx:
        jobs.append((func_path, "_reparam_witness", idx["witness"]["unit"], idx["witness"], extra))
    if include_witness == "sld":
        if "witness_sld" not in idx:
            raise AnalysisError("SLD-translation witness unit was not generated: %s" % (idx.get("errors", {}).get("_reparam_witness_sld", "")[-300:]))
        jobs.append((func_path, "_reparam_witness_sld", idx["witness_sld"]["unit"], idx["witness_sld"], extra))
    results = {}
    nproc = min(16, os.cpu_count() or 4, max(1, len(jobs)))
    with ProcessPoolExecutor(max_workers=nproc) as pool:
        for name, res, err in pool.map(_worker, jobs, chunksize=1):
            if err:
                raise AnalysisError("unit %s: %s" % (name, err.strip().splitlines()[-1] if "Traceback" in err else err))
            results[name] = res
    return results


def fn_digest(node):
    """Digest of a function's AST ignoring ids and source positions (identical digests = identical code)."""
    import hashlib
    h = hashlib.sha1()
    for n in walk(node):
        h.update((n.get("kind", "") + "|" + str(n.get("opcode", "")) + "|" + str(n.get("value", "")) + "|" +
                  str(n.get("name", "")) + "|" + str((n.get("referencedDecl") or {}).get("name", "")) + "|" +
                  str((n.get("type") or {}).get("qualType", "")) + ";").encode())
    return h.hexdigest()
